(* Round trip and field offsets of the segment layout; open / repair theorems (C16, C17). *)
From Coq Require Import ZArith List Bool Lia Arith.
From CB Require Import Mach Client Gen GenProofs Layout Open MachineFacts.
Import ListNotations.
Open Scope Z_scope.

Lemma le_bytes_length n : forall x, length (le_bytes n x) = n.
Proof. induction n; intros x; cbn [le_bytes length]; [reflexivity | rewrite IHn; reflexivity]. Qed.

Lemma le_value_bytes n : forall x, 0 <= x -> le_value (le_bytes n x) = x mod 256 ^ Z.of_nat n.
Proof.
  induction n as [|n IH]; intros x Hx.
  - cbn. rewrite Z.mod_1_r. reflexivity.
  - cbn [le_bytes le_value]. rewrite IH by (apply Z.div_pos; lia).
    rewrite Nat2Z.inj_succ, Z.pow_succ_r by lia.
    rewrite (Z.mul_comm 256), Z.rem_mul_r by lia. lia.
Qed.

Lemma le_value_small n x : 0 <= x < 256 ^ Z.of_nat n -> le_value (le_bytes n x) = x.
Proof. intros H. rewrite le_value_bytes by lia. apply Z.mod_small. exact H. Qed.

Lemma dec_enc_i64 x : - 9223372036854775808 <= x < 9223372036854775808 -> dec_i64 (enc_i64 x) = x.
Proof.
  intros H. unfold dec_i64, enc_i64.
  rewrite le_value_small by (change (256 ^ Z.of_nat 8) with 18446744073709551616; apply Z.mod_pos_bound; lia).
  destruct (Z_lt_le_dec x 0).
  - rewrite <- (Z.mod_add x 1) by lia. rewrite Z.mod_small by lia.
    destruct (Z.ltb_spec (x + 1 * 18446744073709551616) 9223372036854775808); lia.
  - rewrite Z.mod_small by lia. destruct (Z.ltb_spec x 9223372036854775808); lia.
Qed.

Lemma enc_i64_length x : length (enc_i64 x) = 8%nat. Proof. apply le_bytes_length. Qed.
Lemma enc_u_length n x : length (enc_u n x) = n. Proof. apply le_bytes_length. Qed.

Lemma encode_header_length h : length (encode_header h) = 16%nat.
Proof. unfold encode_header. rewrite !app_length, !enc_u_length. reflexivity. Qed.

Lemma encode_ceb_length c : length (encode_ceb c) = 56%nat.
Proof. unfold encode_ceb. rewrite !app_length, !enc_i64_length, !enc_u_length. reflexivity. Qed.

Theorem segment_is_72_bytes h c : length (encode_header h ++ encode_ceb c) = 72%nat.
Proof. rewrite app_length, encode_header_length, encode_ceb_length. reflexivity. Qed.

(* slicing a concatenation at a boundary *)
Lemma slice_mid (a b c : list Z) off len : length a = off -> length b = len -> slice (a ++ b ++ c) off len = b.
Proof.
  intros <- <-. unfold slice. rewrite skipn_app, skipn_all, Nat.sub_diag. cbn [skipn app].
  rewrite firstn_app, firstn_all, Nat.sub_diag. cbn [firstn]. apply app_nil_r.
Qed.

Lemma slice_mid' (a b : list Z) off len : length a = off -> length b = len -> slice (a ++ b) off len = b.
Proof. intros Ha Hb. rewrite <- (app_nil_r b) at 1. apply slice_mid; assumption. Qed.

Lemma slice_head (b c : list Z) len : length b = len -> slice (b ++ c) 0 len = b.
Proof. intros <-. unfold slice. cbn [skipn]. rewrite firstn_app, firstn_all, Nat.sub_diag. cbn [firstn]. apply app_nil_r. Qed.

Definition hdr_ok (h : header) : Prop :=
  0 <= h_magic0 h < 4294967296 /\ 0 <= h_magic1 h < 4294967296 /\ 0 <= h_size h < 4294967296 /\
  0 <= h_version h < 65536 /\ 0 <= h_generation h < 65536.

Definition ceb_ok (c : ceb) : Prop :=
  (forall x, In x [ts_sec (c_as_of c); ts_nsec (c_as_of c); ts_sec (c_void_after c); ts_nsec (c_void_after c); c_bound c] ->
     - 9223372036854775808 <= x < 9223372036854775808) /\
  0 <= c_drift c < 4294967296 /\ 0 <= c_reserved c < 4294967296.

Ltac len_solve := repeat rewrite ?app_length, ?enc_u_length, ?enc_i64_length; reflexivity.

(* the fields at their documented offsets *)
Theorem header_fields h rest : hdr_ok h ->
  let bs := encode_header h ++ rest in
  le_value (slice bs 0 4) = h_magic0 h /\ le_value (slice bs 4 4) = h_magic1 h /\
  le_value (slice bs 8 4) = h_size h /\ le_value (slice bs 12 2) = h_version h /\ le_value (slice bs 14 2) = h_generation h.
Proof.
  intros (H0 & H1 & H2 & H3 & H4). cbv zeta. unfold encode_header. rewrite <- !app_assoc.
  repeat split.
  - rewrite slice_head by len_solve. apply le_value_small. exact H0.
  - rewrite (slice_mid (enc_u 4 (h_magic0 h)) _ _ 4 4) by len_solve. apply le_value_small. exact H1.
  - rewrite (app_assoc (enc_u 4 (h_magic0 h))).
    rewrite (slice_mid (enc_u 4 (h_magic0 h) ++ enc_u 4 (h_magic1 h)) _ _ 8 4) by len_solve. apply le_value_small. exact H2.
  - rewrite (app_assoc (enc_u 4 (h_magic0 h))), (app_assoc (_ ++ _) (enc_u 4 (h_size h))).
    rewrite (slice_mid ((enc_u 4 (h_magic0 h) ++ enc_u 4 (h_magic1 h)) ++ enc_u 4 (h_size h)) _ _ 12 2) by len_solve.
    apply le_value_small. exact H3.
  - rewrite (app_assoc (enc_u 4 (h_magic0 h))), (app_assoc (_ ++ _) (enc_u 4 (h_size h))), (app_assoc (_ ++ _) (enc_u 2 (h_version h))).
    rewrite (slice_mid (((enc_u 4 (h_magic0 h) ++ enc_u 4 (h_magic1 h)) ++ enc_u 4 (h_size h)) ++ enc_u 2 (h_version h)) _ _ 14 2) by len_solve.
    apply le_value_small. exact H4.
Qed.

Theorem decode_encode_header h rest : hdr_ok h -> decode_header (encode_header h ++ rest) = h.
Proof.
  intros H. destruct (header_fields h rest H) as (A & B & C & D & E). unfold decode_header.
  rewrite A, B, C, D, E. destruct h; reflexivity.
Qed.

(* record fields at offsets off+0, +8, +16, +24, +32, +40, +44, +48 *)
Theorem decode_encode_ceb_tl pre c tl : ceb_ok c -> decode_ceb (pre ++ encode_ceb c ++ tl) (length pre) = Some c.
Proof.
  intros (Hi & Hd & Hr). unfold decode_ceb, encode_ceb. rewrite <- !app_assoc.
  set (a0 := enc_i64 (ts_sec (c_as_of c))). set (a1 := enc_i64 (ts_nsec (c_as_of c))).
  set (v0 := enc_i64 (ts_sec (c_void_after c))). set (v1 := enc_i64 (ts_nsec (c_void_after c))).
  set (b := enc_i64 (c_bound c)). set (d := enc_u 4 (c_drift c)). set (rs := enc_u 4 (c_reserved c)).
  set (st := enc_u 4 (status_code (c_status c))). set (pad := [0; 0; 0; 0]).
  assert (L8 : forall x, length (enc_i64 x) = 8%nat) by apply enc_i64_length.
  assert (E0 : slice (pre ++ a0 ++ a1 ++ v0 ++ v1 ++ b ++ d ++ rs ++ st ++ pad ++ tl) (length pre) 8 = a0)
    by (apply slice_mid; [reflexivity | apply L8]).
  assert (E1 : slice (pre ++ a0 ++ a1 ++ v0 ++ v1 ++ b ++ d ++ rs ++ st ++ pad ++ tl) (length pre + 8) 8 = a1).
  { rewrite (app_assoc pre a0). apply slice_mid; [rewrite app_length; unfold a0; rewrite L8; reflexivity | apply L8]. }
  assert (E2 : slice (pre ++ a0 ++ a1 ++ v0 ++ v1 ++ b ++ d ++ rs ++ st ++ pad ++ tl) (length pre + 16) 8 = v0).
  { rewrite (app_assoc pre a0), (app_assoc (pre ++ a0) a1).
    apply slice_mid; [rewrite !app_length; unfold a0, a1; rewrite !L8; lia | apply L8]. }
  assert (E3 : slice (pre ++ a0 ++ a1 ++ v0 ++ v1 ++ b ++ d ++ rs ++ st ++ pad ++ tl) (length pre + 24) 8 = v1).
  { rewrite (app_assoc pre a0), (app_assoc (pre ++ a0) a1), (app_assoc (_ ++ a1) v0).
    apply slice_mid; [rewrite !app_length; unfold a0, a1, v0; rewrite !L8; lia | apply L8]. }
  assert (E4 : slice (pre ++ a0 ++ a1 ++ v0 ++ v1 ++ b ++ d ++ rs ++ st ++ pad ++ tl) (length pre + 32) 8 = b).
  { rewrite (app_assoc pre a0), (app_assoc (pre ++ a0) a1), (app_assoc (_ ++ a1) v0), (app_assoc (_ ++ v0) v1).
    apply slice_mid; [rewrite !app_length; unfold a0, a1, v0, v1; rewrite !L8; lia | apply L8]. }
  assert (E5 : slice (pre ++ a0 ++ a1 ++ v0 ++ v1 ++ b ++ d ++ rs ++ st ++ pad ++ tl) (length pre + 40) 4 = d).
  { rewrite (app_assoc pre a0), (app_assoc (pre ++ a0) a1), (app_assoc (_ ++ a1) v0), (app_assoc (_ ++ v0) v1), (app_assoc (_ ++ v1) b).
    apply slice_mid; [rewrite !app_length; unfold a0, a1, v0, v1, b; rewrite !L8; lia | apply enc_u_length]. }
  assert (E6 : slice (pre ++ a0 ++ a1 ++ v0 ++ v1 ++ b ++ d ++ rs ++ st ++ pad ++ tl) (length pre + 44) 4 = rs).
  { rewrite (app_assoc pre a0), (app_assoc (pre ++ a0) a1), (app_assoc (_ ++ a1) v0), (app_assoc (_ ++ v0) v1), (app_assoc (_ ++ v1) b), (app_assoc (_ ++ b) d).
    apply slice_mid; [rewrite !app_length; unfold a0, a1, v0, v1, b, d; rewrite !L8, enc_u_length; lia | apply enc_u_length]. }
  assert (E7 : slice (pre ++ a0 ++ a1 ++ v0 ++ v1 ++ b ++ d ++ rs ++ st ++ pad ++ tl) (length pre + 48) 4 = st).
  { rewrite (app_assoc pre a0), (app_assoc (pre ++ a0) a1), (app_assoc (_ ++ a1) v0), (app_assoc (_ ++ v0) v1), (app_assoc (_ ++ v1) b), (app_assoc (_ ++ b) d), (app_assoc (_ ++ d) rs).
    apply slice_mid; [rewrite !app_length; unfold a0, a1, v0, v1, b, d, rs; rewrite !L8, !enc_u_length; lia | apply enc_u_length]. }
  rewrite E0, E1, E2, E3, E4, E5, E6, E7. unfold a0, a1, v0, v1, b, d, rs, st, enc_u.
  rewrite (le_value_small 4 (status_code (c_status c))) by (destruct (c_status c); cbn; lia).
  assert (S : status_of_code (status_code (c_status c)) = Some (c_status c)) by (destruct (c_status c); reflexivity).
  rewrite S. rewrite !dec_enc_i64 by (apply Hi; cbn; tauto).
  rewrite !le_value_small by assumption. destruct c as [[? ?] [? ?] ? ? ? ?]. reflexivity.
Qed.

Theorem decode_encode_ceb pre c : ceb_ok c -> decode_ceb (pre ++ encode_ceb c) (length pre) = Some c.
Proof. intros H. rewrite <- (app_nil_r (encode_ceb c)). apply decode_encode_ceb_tl, H. Qed.

(* ------------------------------------------------------------------ C16: open *)
Theorem open_ok_iff bs h : reader_open (FFile bs) = OpenOk h <->
  (16 <= length bs)%nat /\ h = decode_header bs /\ h_magic0 h = MAGIC0 /\ h_magic1 h = MAGIC1 /\
  h_version h <> 0 /\ h_generation h <> 0 /\ 72 <= h_size h.
Proof.
  unfold reader_open. destruct (Nat.ltb_spec (length bs) 16).
  - split; [discriminate | intros (H' & _); lia].
  - remember (decode_header bs) as d eqn:Ed.
    destruct (Z.eqb_spec (h_magic0 d) MAGIC0) as [M0|M0]; [|cbn [andb negb]; split; [discriminate | intros (_ & -> & A & _); congruence]].
    destruct (Z.eqb_spec (h_magic1 d) MAGIC1) as [M1|M1]; [|cbn [andb negb]; split; [discriminate | intros (_ & -> & _ & A & _); congruence]].
    cbn [andb negb].
    destruct (Z.eqb_spec (h_version d) 0) as [V|V]; [split; [discriminate | intros (_ & -> & _ & _ & A & _); congruence]|].
    destruct (Z.eqb_spec (h_generation d) 0) as [G|G]; [split; [discriminate | intros (_ & -> & _ & _ & _ & A & _); congruence]|].
    destruct (Z.ltb_spec (h_size d) 16); [split; [discriminate | intros (_ & -> & _ & _ & _ & _ & A); lia]|].
    destruct (Z.ltb_spec (h_size d) 72); [split; [discriminate | intros (_ & -> & _ & _ & _ & _ & A); lia]|].
    split.
    + intros E. inversion E; subst h. repeat split; auto.
    + intros (_ & -> & _). reflexivity.
Qed.

Theorem open_error_table f :
  match f with
  | FMissing => reader_open f = OpenErr (KSyscall ENOENT 1)
  | FDir => reader_open f = OpenErr (KSyscall EISDIR 2)
  | FNoPath e => reader_open f = OpenErr (KSyscall e 1)
  | FFile bs =>
      ((length bs < 16)%nat -> reader_open f = OpenErr KNotInitialized) /\
      ((16 <= length bs)%nat ->
         let h := decode_header bs in
         (h_magic0 h <> MAGIC0 \/ h_magic1 h <> MAGIC1 \/ h_version h = 0 \/ h_generation h = 0 -> reader_open f = OpenErr KNotInitialized) /\
         (h_magic0 h = MAGIC0 -> h_magic1 h = MAGIC1 -> h_version h <> 0 -> h_generation h <> 0 -> h_size h < 72 -> reader_open f = OpenErr KMalformed))
  end.
Proof.
  destruct f as [| | bs | e]; try reflexivity. unfold reader_open. split.
  - intros H. destruct (Nat.ltb_spec (length bs) 16); [reflexivity | lia].
  - intros H. destruct (Nat.ltb_spec (length bs) 16); [lia|]. cbv zeta. set (d := decode_header bs). split.
    + intros C. destruct (Z.eqb_spec (h_magic0 d) MAGIC0), (Z.eqb_spec (h_magic1 d) MAGIC1); cbn [andb negb]; try reflexivity.
      destruct (Z.eqb_spec (h_version d) 0); [reflexivity|]. destruct (Z.eqb_spec (h_generation d) 0); [reflexivity|]. tauto.
    + intros A B C D E. rewrite A, B, !Z.eqb_refl. cbn [andb negb].
      destruct (Z.eqb_spec (h_version d) 0); [tauto|]. destruct (Z.eqb_spec (h_generation d) 0); [tauto|].
      destruct (Z.ltb_spec (h_size d) 16); [reflexivity|]. destruct (Z.ltb_spec (h_size d) 72); [reflexivity | lia].
Qed.

(* ------------------------------------------------------------------ C16: repair *)
Lemma fresh_header_ok : hdr_ok (fresh_header 2).
Proof. unfold hdr_ok, fresh_header, MAGIC0, MAGIC1, SEGSIZE; cbn. lia. Qed.

(* a file the daemon had to re-create: exactly the documented 72 bytes, openable, record = r *)
Theorem repair_recreated f r : f <> FDir -> (forall e, f <> FNoPath e) -> (forall h, reader_open f <> OpenOk h) -> ceb_ok r ->
  exists bs, after_first_publication f r = Some bs /\ bs = encode_header (fresh_header 2) ++ encode_ceb r /\
    length bs = 72%nat /\ (exists h, reader_open (FFile bs) = OpenOk h) /\ decode_ceb bs 16 = Some r.
Proof.
  intros Hd Hp Hn Hr. exists (encode_header (fresh_header 2) ++ encode_ceb r).
  split.
  { unfold after_first_publication. destruct f as [| | bs | e]; [|congruence| |exfalso; apply (Hp e); reflexivity].
    - reflexivity.
    - destruct (reader_open (FFile bs)) as [h|k] eqn:E; [exfalso; apply (Hn h); reflexivity | reflexivity]. }
  split; [reflexivity|]. split; [apply segment_is_72_bytes|]. split.
  - exists (fresh_header 2). apply open_ok_iff. rewrite segment_is_72_bytes.
    rewrite decode_encode_header by apply fresh_header_ok. cbn. repeat split; try lia; discriminate.
  - rewrite <- (encode_header_length (fresh_header 2)). apply decode_encode_ceb, Hr.
Qed.

(* a valid file is taken over in place: magic and size untouched, version 1, next even generation,
   the record at offset 16, everything beyond byte 72 untouched; a file shorter than 72 bytes is
   extended; the result can be opened and read back *)
Lemma slice_app_l (a b : list Z) off len : (off + len <= length a)%nat -> slice (a ++ b) off len = slice a off len.
Proof.
  intros H. unfold slice. rewrite skipn_app, firstn_app, skipn_length.
  replace (len - (length a - off))%nat with 0%nat by lia. cbn [firstn]. apply app_nil_r.
Qed.

Lemma slice_firstn (l : list Z) n off len : (off + len <= n)%nat -> slice (firstn n l) off len = slice l off len.
Proof.
  intros H. unfold slice. rewrite skipn_firstn_comm, firstn_firstn. f_equal. lia.
Qed.

Lemma skipn_app_exact (a b : list Z) n : length a = n -> skipn n (a ++ b) = b.
Proof. intros <-. rewrite skipn_app, skipn_all, Nat.sub_diag, skipn_O. reflexivity. Qed.

Lemma pad_to_length bs n : length (pad_to bs n) = Nat.max (length bs) n.
Proof. unfold pad_to. rewrite app_length, repeat_length. lia. Qed.

Theorem repair_taken_over bs h r : reader_open (FFile bs) = OpenOk h -> ceb_ok r -> 0 <= h_generation h < 65536 ->
  exists bs' h', after_first_publication (FFile bs) r = Some bs' /\
    reader_open (FFile bs') = OpenOk h' /\ decode_ceb bs' 16 = Some r /\
    firstn 12 bs' = firstn 12 bs /\ h_version h' = 1 /\ h_generation h' = post (pre (h_generation h)) /\
    length bs' = Nat.max (length bs) 72 /\ skipn 72 bs' = skipn 72 bs.
Proof.
  intros HO Hr Hg. pose proof HO as HO'. apply open_ok_iff in HO' as (L & Eh & M0 & M1 & V & G & S).
  unfold after_first_publication. rewrite HO.
  set (P := pad_to bs 72). set (g' := post (pre (h_generation h))).
  assert (LP : (72 <= length P)%nat) by (unfold P; rewrite pad_to_length; lia).
  assert (LF : length (firstn 12 P) = 12%nat) by (rewrite firstn_length; lia).
  assert (FP : firstn 12 P = firstn 12 bs) by (unfold P, pad_to; rewrite firstn_app; replace (12 - length bs)%nat with 0%nat by lia; cbn [firstn]; apply app_nil_r).
  set (bs' := firstn 12 P ++ enc_u 2 1 ++ enc_u 2 g' ++ encode_ceb r ++ skipn 72 P).
  assert (Gr : 0 <= g' < 65536 /\ g' <> 0).
  { unfold g'. destruct (generation_step_spec (h_generation h) Hg) as (_ & _ & N & _ & _ & _ & _ & R). split; assumption. }
  assert (HD : decode_header bs' = mkhdr (h_magic0 h) (h_magic1 h) (h_size h) 1 g').
  { unfold decode_header, bs'.
    rewrite !(slice_app_l (firstn 12 P)) by (rewrite LF; lia). rewrite !slice_firstn by lia.
    rewrite (slice_mid (firstn 12 P) (enc_u 2 1) _ 12 2) by (auto using enc_u_length).
    rewrite (app_assoc (firstn 12 P) (enc_u 2 1)).
    rewrite (slice_mid (firstn 12 P ++ enc_u 2 1) (enc_u 2 g') _ 14 2) by (rewrite ?app_length, ?LF, ?enc_u_length; reflexivity).
    unfold enc_u. rewrite !le_value_small by (cbn; lia).
    rewrite Eh. unfold decode_header, P, pad_to. rewrite !slice_app_l by lia. reflexivity. }
  exists bs', (mkhdr (h_magic0 h) (h_magic1 h) (h_size h) 1 g').
  split; [reflexivity|]. split.
  - apply open_ok_iff. rewrite HD. cbn [h_magic0 h_magic1 h_version h_generation h_size].
    repeat split; auto; try lia; try tauto.
    unfold bs'. rewrite !app_length, LF, !enc_u_length, encode_ceb_length. lia.
  - split.
    + unfold bs'. rewrite (app_assoc (firstn 12 P)), (app_assoc (_ ++ _) (enc_u 2 g')).
      replace 16%nat with (length ((firstn 12 P ++ enc_u 2 1) ++ enc_u 2 g')) by (rewrite !app_length, LF, !enc_u_length; reflexivity).
      apply decode_encode_ceb_tl, Hr.
    + split; [unfold bs'; rewrite firstn_app, LF, Nat.sub_diag, firstn_O, app_nil_r, firstn_firstn; exact FP|].
      split; [reflexivity|]. split; [reflexivity|]. split.
      * unfold bs'. rewrite !app_length, LF, !enc_u_length, encode_ceb_length, skipn_length.
        unfold P. rewrite pad_to_length. lia.
      * unfold bs'. rewrite (app_assoc (firstn 12 P)), (app_assoc (_ ++ _) (enc_u 2 g')), (app_assoc (_ ++ _) (encode_ceb r)).
        rewrite skipn_app_exact by (rewrite !app_length, LF, !enc_u_length, encode_ceb_length; reflexivity).
        unfold P, pad_to. rewrite skipn_app.
        destruct (Nat.le_gt_cases 72 (length bs)).
        -- replace (72 - length bs)%nat with 0%nat by lia. rewrite skipn_O. apply app_nil_r.
        -- rewrite (skipn_all2 bs) by lia. rewrite skipn_all2 by (rewrite repeat_length; lia). reflexivity.
Qed.

(* ------------------------------------------------------------------ C04: death inside wipe *)
Theorem wipe_writes_image : concat wipe_writes = wipe_image.
Proof. reflexivity. Qed.

Theorem crash_states_refused_spec writes : crash_states_refused writes = true ->
  forall n h, reader_open (FFile (firstn n (concat writes))) <> OpenOk h.
Proof.
  unfold crash_states_refused. intros H n h E. rewrite forallb_forall in H.
  destruct (Nat.le_gt_cases n (length (concat writes))) as [Hle|Hgt].
  - specialize (H n). rewrite E in H. cbn in H. assert (In n (seq 0 (S (length (concat writes))))) by (apply in_seq; lia).
    specialize (H H0). discriminate.
  - rewrite firstn_all2 in E by lia. specialize (H (length (concat writes))). rewrite firstn_all in H. rewrite E in H. cbn in H.
    assert (In (length (concat writes)) (seq 0 (S (length (concat writes))))) by (apply in_seq; lia). specialize (H H0). discriminate.
Qed.

Theorem wipe_crash_never_valid : forall n h, reader_open (FFile (firstn n wipe_image)) <> OpenOk h.
Proof. rewrite <- wipe_writes_image. apply crash_states_refused_spec. vm_compute. reflexivity. Qed.

(* and whatever state it left, the next daemon's start-up and first publication make the segment
   usable with exactly the published record (repair_recreated, for that state) *)
Theorem wipe_crash_then_restart n r : ceb_ok r ->
  after_first_publication (FFile (firstn n wipe_image)) r = Some (encode_header (fresh_header 2) ++ encode_ceb r).
Proof.
  intros Hr. unfold after_first_publication.
  destruct (reader_open (FFile (firstn n wipe_image))) as [h|k] eqn:E; [|reflexivity].
  exfalso. exact (wipe_crash_never_valid n h E).
Qed.

(* why the file must be truncated first: writing the same bytes over the old content can pass
   through a state that readers accept although its record is the old garbage *)
Definition overwrite (old new : list Z) (k : nat) : list Z := firstn k new ++ skipn k old.

Theorem wipe_without_truncation_refuted :
  exists old k h, (forall h', reader_open (FFile old) <> OpenOk h') /\
                  reader_open (FFile (overwrite old wipe_image k)) = OpenOk h.
Proof.
  exists (enc_u 4 7 ++ enc_u 4 MAGIC1 ++ enc_u 4 SEGSIZE ++ enc_u 2 1 ++ enc_u 2 6 ++ repeat 255 56), 4%nat.
  eexists. split; [intros h' E; vm_compute in E; discriminate | vm_compute; reflexivity].
Qed.
