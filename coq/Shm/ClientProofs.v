(* Proofs about ClockErrorBound::compute_bound_at (model: Shm/Client.v) on the physically
   meaningful range R: normalised timestamps with |sec| <= 2^31, 0 <= bound < 2^60, u32 drift. *)
From Coq Require Import ZArith Reals Lia Lra Psatz Bool ZifyBool.
From Flocq Require Import Core Relative BinarySingleNaN.
From CB Require Import Mach MachProofs F64 F64Proofs Client.
Open Scope Z_scope.

(* ------------------------------------------------------------------ growth in binary64 *)
Definition EMAX := 4300000000000000000.   (* > 2 * (2^31 + 1) * 10^9 ns *)
Definition DMAX := 4294967295.

Definition gf (e d : Z) : f64 := mul (div (of_Z e) f1e9) (of_Z d).
Definition gR (e d : Z) : R := rnd (rnd (rnd (IZR e) / 1000000000) * IZR d).

Lemma growth_gf e d : growth e d = to_i64 (gf e d). Proof. reflexivity. Qed.

Lemma bpow_IZR k : (0 <= k)%Z -> bpow radix2 k = IZR (2 ^ k).
Proof. intros H. rewrite <- (IZR_Zpower radix2 k H). reflexivity. Qed.

Lemma rnd_le_bpow x k : (-1000 <= k <= 1000)%Z -> (Rabs x <= bpow radix2 k)%R -> (Rabs (rnd x) <= bpow radix2 k)%R.
Proof.
  intros Hk H. apply abs_round_le_generic; auto with typeclass_instances.
  apply generic_format_bpow. unfold FLT_exp, prec, emax. lia.
Qed.

Lemma gf_spec e d : 0 <= e <= EMAX -> 0 <= d <= DMAX ->
  fin (gf e d) /\ B2R (gf e d) = gR e d /\ (0 <= gR e d <= bpow radix2 95)%R.
Proof.
  intros He Hd. unfold gf, gR, EMAX, DMAX in *.
  destruct (of_Z_spec e) as [Fe Ee]; [lia|].
  destruct (of_Z_exact d) as [Fd Ed]; [lia|].
  destruct f1e9_spec as [F9 E9].
  assert (He0 : (0 <= IZR e)%R) by (apply IZR_le; lia).
  assert (HeB : (IZR e <= bpow radix2 63)%R) by (rewrite bpow_IZR by lia; apply IZR_le; lia).
  assert (Hd0 : (0 <= IZR d)%R) by (apply IZR_le; lia).
  assert (HdB : (IZR d <= bpow radix2 32)%R) by (rewrite bpow_IZR by lia; apply IZR_le; lia).
  assert (HA0 : (0 <= rnd (IZR e))%R) by (apply rnd_nonneg, He0).
  assert (HAB : (rnd (IZR e) <= bpow radix2 63)%R).
  { pose proof (rnd_le_bpow (IZR e) 63 ltac:(lia)) as H. rewrite !Rabs_pos_eq in H by assumption. auto. }
  assert (Hq0 : (0 <= rnd (IZR e) / 1000000000)%R) by (apply Rmult_le_pos; [assumption | lra]).
  assert (HqB : (rnd (IZR e) / 1000000000 <= bpow radix2 63)%R).
  { apply Rle_trans with (rnd (IZR e) / 1)%R; [|lra].
    unfold Rdiv. apply Rmult_le_compat_l; [assumption|]. apply Rinv_le; lra. }
  destruct (div_spec (of_Z e) f1e9 Fe) as [Fq Eq].
  { rewrite E9. lra. }
  { rewrite Ee, E9, Rabs_pos_eq by assumption. unfold BIG.
    eapply Rle_trans; [exact HqB|]. apply bpow_le. lia. }
  rewrite Ee, E9 in Eq.
  assert (HB0 : (0 <= rnd (rnd (IZR e) / 1000000000))%R) by (apply rnd_nonneg, Hq0).
  assert (HBB : (rnd (rnd (IZR e) / 1000000000) <= bpow radix2 63)%R).
  { pose proof (rnd_le_bpow (rnd (IZR e) / 1000000000) 63 ltac:(lia)) as H.
    rewrite !Rabs_pos_eq in H by assumption. auto. }
  assert (Hp0 : (0 <= rnd (rnd (IZR e) / 1000000000) * IZR d)%R) by (apply Rmult_le_pos; assumption).
  assert (HpB : (rnd (rnd (IZR e) / 1000000000) * IZR d <= bpow radix2 95)%R).
  { change 95 with (63 + 32). rewrite bpow_plus. apply Rmult_le_compat; assumption. }
  destruct (mul_spec (div (of_Z e) f1e9) (of_Z d) Fq Fd) as [Fp Ep].
  { rewrite Eq, Ed, Rabs_pos_eq by assumption. unfold BIG.
    eapply Rle_trans; [exact HpB|]. apply bpow_le. lia. }
  rewrite Eq, Ed in Ep. split; [exact Fp|]. split; [exact Ep|]. split; [apply rnd_nonneg, Hp0|].
  pose proof (rnd_le_bpow _ 95 ltac:(lia) (eq_ind_r (fun t => (t <= _)%R) HpB (Rabs_pos_eq _ Hp0))) as H.
  rewrite Rabs_pos_eq in H by (apply rnd_nonneg, Hp0). exact H.
Qed.

Lemma gR_mono e1 d1 e2 d2 : 0 <= e1 <= e2 -> 0 <= d1 <= d2 -> (gR e1 d1 <= gR e2 d2)%R.
Proof.
  intros He Hd. unfold gR. apply rnd_mono.
  assert (H1 : (0 <= IZR e1 <= IZR e2)%R) by (split; apply IZR_le; lia).
  assert (H2 : (0 <= IZR d1 <= IZR d2)%R) by (split; apply IZR_le; lia).
  assert (HA : (0 <= rnd (IZR e1) <= rnd (IZR e2))%R) by (split; [apply rnd_nonneg | apply rnd_mono]; lra).
  assert (HB : (0 <= rnd (rnd (IZR e1) / 1000000000) <= rnd (rnd (IZR e2) / 1000000000))%R).
  { split; [apply rnd_nonneg | apply rnd_mono]; unfold Rdiv.
    - apply Rmult_le_pos; lra.
    - apply Rmult_le_compat_r; lra. }
  apply Rmult_le_compat; lra.
Qed.

(* in range R the drift is below 10^9 once the malformed test has passed *)
Definition DOK := 999999999.

Lemma growth_top : growth EMAX DOK = 4299999995699999744. Proof. vm_compute. reflexivity. Qed.

Lemma growth_spec e d : 0 <= e <= EMAX -> 0 <= d <= DOK ->
  growth e d = Ztrunc (gR e d) /\ 0 <= growth e d <= 4299999995699999744.
Proof.
  intros He Hd. unfold DOK in *.
  destruct (gf_spec e d He) as (F & E & P0 & _); [unfold DMAX; lia|].
  destruct (gf_spec EMAX DOK) as (F' & E' & _ & _); [unfold EMAX; lia | unfold DOK, DMAX; lia|].
  assert (M : (gR e d <= gR EMAX DOK)%R) by (apply gR_mono; unfold DOK; lia).
  assert (T0 : 0 <= Ztrunc (gR e d)).
  { apply Z.le_trans with (Ztrunc (IZR 0)); [rewrite Ztrunc_IZR; lia | apply Ztrunc_le, P0]. }
  assert (T1 : Ztrunc (gR e d) <= 4299999995699999744).
  { rewrite <- growth_top. rewrite growth_gf.
    rewrite to_i64_spec; [rewrite E'; apply Ztrunc_le, M | exact F' |].
    rewrite <- trunc_spec. vm_compute. split; discriminate. }
  rewrite growth_gf, to_i64_spec; [rewrite E; split; [reflexivity | lia] | exact F |].
  rewrite E. unfold i64_min, i64_max. lia.
Qed.

Lemma growth_mono e1 d1 e2 d2 : 0 <= e1 <= e2 -> e2 <= EMAX -> 0 <= d1 <= d2 -> d2 <= DOK ->
  growth e1 d1 <= growth e2 d2.
Proof.
  intros He He2 Hd Hd2.
  destruct (growth_spec e1 d1) as [-> _]; [lia | lia|].
  destruct (growth_spec e2 d2) as [-> _]; [lia | lia|].
  apply Ztrunc_le, gR_mono; lia.
Qed.

Lemma growth_zero d : 0 <= d <= DOK -> growth 0 d = 0.
Proof.
  intros Hd. destruct (growth_spec 0 d) as [-> _]; [unfold EMAX; lia | lia|].
  unfold gR. rewrite rnd_0. unfold Rdiv. rewrite Rmult_0_l, rnd_0, Rmult_0_l, rnd_0.
  exact (Ztrunc_IZR 0).
Qed.

(* ------------------------------------------------------------------ range R *)
Definition ceb_inR (c : ceb) : Prop :=
  ts_inR (c_as_of c) /\ ts_inR (c_void_after c) /\ 0 <= c_bound c < 2 ^ 60 /\ 0 <= c_drift c < 2 ^ 32.

(* status decay expressed on nanosecond counts *)
Definition decay (c : ceb) (mono : timespec) : status :=
  match c_status c with
  | Unknown => Unknown
  | s => if ns mono <? ns (c_as_of c) + 5000000000 then s
         else if ns mono <? ns (c_void_after c) then FreeRunning else Unknown
  end.

Definition elapsed (c : ceb) (mono : timespec) : Z := Z.max 0 (ns mono - ns (c_as_of c)).
Definition halfwidth (c : ceb) (mono : timespec) : Z := c_bound c + growth (elapsed c mono) (c_drift c).

Lemma ts_inR_norm t : ts_inR t -> 0 <= ts_nsec t < NS. Proof. intros [H _]; exact H. Qed.

Lemma GRACE_nn : ts_num_nanoseconds GRACE = Some 5000000000. Proof. reflexivity. Qed.
Lemma BLUR_nn : ts_num_nanoseconds BLUR = Some 1000. Proof. reflexivity. Qed.

Ltac R_facts :=
  repeat match goal with
  | H : ts_inR ?t |- _ =>
      let H1 := fresh "Hn" in let H2 := fresh "Hr" in
      pose proof (ts_inR_norm t H) as H1; pose proof (ns_range t H) as H2;
      pose proof (num_nanoseconds_inR t H); revert H
  end; intros.

(* The complete characterisation of compute_bound_at on range R with a sane drift. *)
Theorem cba_char c real mono :
  ceb_inR c -> ts_inR real -> ts_inR mono -> c_drift c < 1000000000 ->
  if ns mono <=? ns (c_as_of c) - 1000 then compute_bound_at c real mono = Err ECausality
  else exists e l, compute_bound_at c real mono = Ok (e, l, decay c mono) /\
         ns e = ns real - halfwidth c mono /\ ns l = ns real + halfwidth c mono /\
         0 <= ts_nsec e < NS /\ 0 <= ts_nsec l < NS /\
         0 <= halfwidth c mono.
Proof.
  intros (Ha & Hv & Hb & Hd) Hr Hm Hd9.
  unfold compute_bound_at.
  destruct (Z.leb_spec 1000000000 (c_drift c)) as [?|_]; [lia|].
  pose proof (ts_inR_norm _ Ha) as Na; pose proof (ns_range _ Ha) as Ra; pose proof (num_nanoseconds_inR _ Ha) as Qa.
  pose proof (ts_inR_norm _ Hv) as Nv; pose proof (ns_range _ Hv) as Rv.
  pose proof (ts_inR_norm _ Hr) as Nr; pose proof (ns_range _ Hr) as Rr; pose proof (num_nanoseconds_inR _ Hr) as Qr.
  pose proof (ts_inR_norm _ Hm) as Nm; pose proof (ns_range _ Hm) as Rm; pose proof (num_nanoseconds_inR _ Hm) as Qm.
  unfold SECMAX, NS in *.
  (* as_of + GRACE *)
  destruct (ts_add_ok (c_as_of c) GRACE _ _ Qa GRACE_nn) as (lim & Elim & Nlim & Rlim); [unfold NSMAX; lia|].
  (* as_of - BLUR *)
  destruct (ts_sub_ok (c_as_of c) BLUR _ _ Qa BLUR_nn) as (blur & Eblur & Nblur & Rblur); [unfold NSMAX; lia|].
  rewrite Elim, Eblur. cbn [bind].
  assert (ST : match c_status c with
               | Unknown => Ok Unknown
               | s => if ts_ltb mono lim then Ok s
                      else if ts_ltb mono (c_void_after c) then Ok FreeRunning else Ok Unknown
               end = Ok (decay c mono)).
  { unfold decay. rewrite (ts_ltb_ns mono lim), (ts_ltb_ns mono (c_void_after c)), Nlim by (unfold NS in *; lia).
    destruct (c_status c); try reflexivity;
      destruct (ns mono <? ns (c_as_of c) + 5000000000); try reflexivity;
      destruct (ns mono <? ns (c_void_after c)); reflexivity. }
  cbv zeta. rewrite ST. clear ST.
  rewrite (ts_leb_ns (c_as_of c) mono), (ts_ltb_ns blur mono), Nblur by (unfold NS in *; lia).
  destruct (Z.leb_spec (ns mono) (ns (c_as_of c) - 1000)) as [Hc|Hc].
  - destruct (Z.leb_spec (ns (c_as_of c)) (ns mono)); [lia|].
    destruct (Z.ltb_spec (ns (c_as_of c) - 1000) (ns mono)); [lia|]. reflexivity.
  - assert (exists d, (if ns (c_as_of c) <=? ns mono then bind (ts_sub mono (c_as_of c)) (fun d => Ok d)
                       else if ns (c_as_of c) - 1000 <? ns mono then Ok (mkts 0 0) else Err ECausality) = Ok d
                      /\ ts_num_nanoseconds d = Some (elapsed c mono)) as (d & -> & Ed).
    { unfold elapsed. destruct (Z.leb_spec (ns (c_as_of c)) (ns mono)).
      - destruct (ts_sub_ok mono (c_as_of c) _ _ Qm Qa) as (d & Ed & Nd & Rd); [unfold NSMAX; lia|].
        exists d. rewrite Ed. split; [reflexivity|].
        rewrite num_nanoseconds_norm; [f_equal; lia | exact Rd |].
        unfold ns at 1 in Nd. unfold NS in Nd, Rd. lia.
      - destruct (Z.ltb_spec (ns (c_as_of c) - 1000) (ns mono)); [|lia].
        exists (mkts 0 0). split; [reflexivity|]. rewrite Z.max_l by lia. reflexivity. }
    rewrite Ed. cbn [bind].
    assert (He : 0 <= elapsed c mono <= EMAX) by (unfold elapsed, EMAX; lia).
    destruct (growth_spec (elapsed c mono) (c_drift c) He) as [_ Hg]; [unfold DOK; lia|].
    fold (halfwidth c mono). unfold halfwidth at 1.
    rewrite chk_i64_ok by (unfold i64_min, i64_max; lia). cbn [bind].
    fold (halfwidth c mono).
    assert (Hh : 0 <= halfwidth c mono <= 5500000000000000000) by (unfold halfwidth; lia).
    destruct (nanoseconds_ok (halfwidth c mono)) as (ub & Eub & Nub & Rub & _); [unfold NSMAX; lia|].
    rewrite Eub. cbn [bind].
    assert (Nnub : ts_num_nanoseconds ub = Some (halfwidth c mono)).
    { rewrite num_nanoseconds_norm; [f_equal; exact Nub | exact Rub |].
      unfold ns at 1 in Nub. unfold NS in Nub, Rub. lia. }
    destruct (ts_sub_ok real ub _ _ Qr Nnub) as (e & Ee & Ne & Re); [unfold NSMAX; lia|].
    destruct (ts_add_ok real ub _ _ Qr Nnub) as (l & El & Nl & Rl); [unfold NSMAX; lia|].
    rewrite Ee, El. cbn [bind]. exists e, l. unfold NS. repeat split; try tauto; lia.
Qed.

(* ------------------------------------------------------------------ C14 *)
Theorem malformed_iff c real mono : ceb_inR c -> ts_inR real -> ts_inR mono ->
  (compute_bound_at c real mono = Err EMalformed <-> 1000000000 <= c_drift c).
Proof.
  intros Hc Hr Hm. split.
  - intros E. destruct (Z.le_gt_cases 1000000000 (c_drift c)) as [H|H]; [exact H|].
    pose proof (cba_char c real mono Hc Hr Hm ltac:(lia)) as C.
    destruct (ns mono <=? ns (c_as_of c) - 1000).
    + rewrite C in E. discriminate.
    + destruct C as (e & l & C & _). rewrite C in E. discriminate.
  - intros H. unfold compute_bound_at. destruct (Z.leb_spec 1000000000 (c_drift c)); [reflexivity | lia].
Qed.

Theorem never_panics c real mono : ceb_inR c -> ts_inR real -> ts_inR mono ->
  compute_bound_at c real mono <> Panic.
Proof.
  intros Hc Hr Hm. destruct (Z.le_gt_cases 1000000000 (c_drift c)) as [H|H].
  - rewrite (proj2 (malformed_iff c real mono Hc Hr Hm) H). discriminate.
  - pose proof (cba_char c real mono Hc Hr Hm ltac:(lia)) as C.
    destruct (ns mono <=? ns (c_as_of c) - 1000).
    + rewrite C. discriminate.
    + destruct C as (e & l & C & _). rewrite C. discriminate.
Qed.

Theorem causality_iff c real mono : ceb_inR c -> ts_inR real -> ts_inR mono -> c_drift c < 1000000000 ->
  (compute_bound_at c real mono = Err ECausality <-> ns mono <= ns (c_as_of c) - 1000).
Proof.
  intros Hc Hr Hm Hd. pose proof (cba_char c real mono Hc Hr Hm Hd) as C.
  destruct (Z.leb_spec (ns mono) (ns (c_as_of c) - 1000)).
  - split; [lia | intros _; exact C].
  - destruct C as (e & l & C & _). rewrite C. split; [discriminate | lia].
Qed.

Theorem blur_age_zero c real mono : ceb_inR c -> ts_inR real -> ts_inR mono -> c_drift c < 1000000000 ->
  ns (c_as_of c) - 1000 < ns mono <= ns (c_as_of c) ->
  exists e l, compute_bound_at c real mono = Ok (e, l, decay c mono) /\
    ns e = ns real - c_bound c /\ ns l = ns real + c_bound c.
Proof.
  intros Hc Hr Hm Hd Hb. pose proof (cba_char c real mono Hc Hr Hm Hd) as C.
  destruct (Z.leb_spec (ns mono) (ns (c_as_of c) - 1000)); [lia|].
  destruct C as (e & l & C & Ne & Nl & _). exists e, l. split; [exact C|].
  unfold halfwidth, elapsed in Ne, Nl. rewrite Z.max_l in Ne, Nl by lia.
  destruct Hc as (_ & _ & _ & Hdr).
  rewrite growth_zero in Ne, Nl by (unfold DOK; lia). lia.
Qed.

(* ------------------------------------------------------------------ C05 *)
Theorem interval_symmetric c real mono e l st : ceb_inR c -> ts_inR real -> ts_inR mono ->
  compute_bound_at c real mono = Ok (e, l, st) ->
  ns l - ns real = halfwidth c mono /\ ns real - ns e = halfwidth c mono /\ ns e <= ns l /\
  c_bound c <= halfwidth c mono.
Proof.
  intros Hc Hr Hm E.
  assert (Hd : c_drift c < 1000000000).
  { destruct (Z.le_gt_cases 1000000000 (c_drift c)) as [H|H]; [|lia].
    rewrite (proj2 (malformed_iff c real mono Hc Hr Hm) H) in E. discriminate. }
  pose proof (cba_char c real mono Hc Hr Hm Hd) as C.
  destruct (ns mono <=? ns (c_as_of c) - 1000); [rewrite C in E; discriminate|].
  destruct C as (e' & l' & C & Ne & Nl & _ & _ & Hh). rewrite C in E. inversion E; subst.
  destruct Hc as (Ha & _ & Hb & Hdr).
  assert (0 <= growth (elapsed c mono) (c_drift c)).
  { pose proof (ns_range _ Ha). pose proof (ns_range _ Hm). unfold SECMAX, NS in *.
    apply growth_spec; unfold elapsed, EMAX, DOK; lia. }
  unfold halfwidth in *. lia.
Qed.

Theorem halfwidth_monotone c mono1 mono2 : ceb_inR c -> ts_inR mono1 -> ts_inR mono2 ->
  c_drift c < 1000000000 -> ns mono1 <= ns mono2 -> halfwidth c mono1 <= halfwidth c mono2.
Proof.
  intros (Ha & _ & Hb & Hdr) H1 H2 Hd Hle. unfold halfwidth.
  pose proof (ns_range _ Ha). pose proof (ns_range _ H1). pose proof (ns_range _ H2).
  unfold SECMAX, NS in *.
  assert (growth (elapsed c mono1) (c_drift c) <= growth (elapsed c mono2) (c_drift c)).
  { apply growth_mono; unfold elapsed, EMAX, DOK; lia. }
  lia.
Qed.

(* ------------------------------------------------------------------ C06 *)
Theorem decay_sync c mono :
  decay c mono = Synchronized <-> c_status c = Synchronized /\ ns mono < ns (c_as_of c) + 5000000000.
Proof.
  unfold decay. destruct (c_status c); split; intros H; try discriminate; try (destruct H; discriminate).
  - destruct (Z.ltb_spec (ns mono) (ns (c_as_of c) + 5000000000)); [tauto|].
    destruct (ns mono <? ns (c_void_after c)); discriminate.
  - destruct H as [_ H]. destruct (Z.ltb_spec (ns mono) (ns (c_as_of c) + 5000000000)); [reflexivity | lia].
  - destruct (ns mono <? ns (c_as_of c) + 5000000000); [discriminate|].
    destruct (ns mono <? ns (c_void_after c)); discriminate.
Qed.

Theorem decay_freerunning c mono :
  decay c mono = FreeRunning <->
  (c_status c = FreeRunning /\ (ns mono < ns (c_as_of c) + 5000000000 \/ ns mono < ns (c_void_after c))) \/
  (c_status c = Synchronized /\ ns (c_as_of c) + 5000000000 <= ns mono < ns (c_void_after c)).
Proof.
  unfold decay. destruct (c_status c);
    destruct (Z.ltb_spec (ns mono) (ns (c_as_of c) + 5000000000));
    destruct (Z.ltb_spec (ns mono) (ns (c_void_after c))); split; intros HH;
    try discriminate HH; try reflexivity;
    try (destruct HH as [[H1 H2]|[H1 H2]]; try discriminate H1; lia);
    try (left; split; [reflexivity | lia]); try (right; split; [reflexivity | lia]).
Qed.

Theorem decay_unknown c mono :
  c_status c = Unknown \/ (ns (c_as_of c) + 5000000000 <= ns mono /\ ns (c_void_after c) <= ns mono) ->
  decay c mono = Unknown.
Proof.
  unfold decay. intros [-> | [H1 H2]]; [reflexivity|].
  destruct (c_status c); try reflexivity;
    (destruct (Z.ltb_spec (ns mono) (ns (c_as_of c) + 5000000000)); [lia|]);
    (destruct (Z.ltb_spec (ns mono) (ns (c_void_after c))); [lia | reflexivity]).
Qed.

Theorem decay_fresh c mono : ns mono < ns (c_as_of c) + 5000000000 -> decay c mono = c_status c.
Proof.
  unfold decay. intros H. destruct (c_status c); try reflexivity;
    (destruct (Z.ltb_spec (ns mono) (ns (c_as_of c) + 5000000000)); [reflexivity | lia]).
Qed.

(* the status component of an Ok outcome is [decay] *)
Theorem status_is_decay c real mono e l st : ceb_inR c -> ts_inR real -> ts_inR mono ->
  compute_bound_at c real mono = Ok (e, l, st) -> st = decay c mono.
Proof.
  intros Hc Hr Hm E.
  assert (Hd : c_drift c < 1000000000).
  { destruct (Z.le_gt_cases 1000000000 (c_drift c)) as [H|H]; [|lia].
    rewrite (proj2 (malformed_iff c real mono Hc Hr Hm) H) in E. discriminate. }
  pose proof (cba_char c real mono Hc Hr Hm Hd) as C.
  destruct (ns mono <=? ns (c_as_of c) - 1000); [rewrite C in E; discriminate|].
  destruct C as (e' & l' & C & _). rewrite C in E. inversion E; reflexivity.
Qed.

(* ------------------------------------------------------------------ C05: width of the growth *)
Lemma tiny : (bpow radix2 (-1022) <= / 1000000000000)%R.
Proof.
  apply Rle_trans with (bpow radix2 (-40)); [apply bpow_le; lia|].
  replace (bpow radix2 (-40)) with (/ bpow radix2 40)%R by (symmetry; apply (bpow_opp radix2 40)).
  rewrite (bpow_IZR 40) by lia. apply Rinv_le; [lra|]. apply IZR_le. vm_compute. discriminate.
Qed.

Lemma rnd_rel_nonneg x : (x = 0 \/ / 1000000000000 <= x)%R -> (x * (1 - u) <= rnd x <= x * (1 + u))%R.
Proof.
  intros H. assert (H0 : (0 <= x)%R) by (destruct H; lra).
  assert (H' : (x = 0 \/ bpow radix2 (-1022) <= x)%R) by (pose proof tiny; destruct H; [left | right]; lra).
  split; [apply rnd_lower | apply rnd_upper]; assumption.
Qed.

(* exact product e*d/10^9 versus the binary64 evaluation: relative error below 4 * 2^-53 *)
Theorem gR_width e d : 0 <= e -> 0 <= d ->
  let x := (IZR e * IZR d / 1000000000)%R in
  (x * (1 - 4 * u) <= gR e d <= x * (1 + 4 * u))%R.
Proof.
  intros He Hd x. pose proof u_pos as Up. pose proof u_small as Us.
  assert (E0 : (IZR e = 0 \/ 1 <= IZR e)%R).
  { destruct (Z.eq_dec e 0) as [->|]; [left; reflexivity | right; apply IZR_le; lia]. }
  assert (D0 : (IZR d = 0 \/ 1 <= IZR d)%R).
  { destruct (Z.eq_dec d 0) as [->|]; [left; reflexivity | right; apply IZR_le; lia]. }
  unfold gR. set (A := rnd (IZR e)).
  assert (HA : (IZR e * (1 - u) <= A <= IZR e * (1 + u))%R).
  { apply rnd_rel_nonneg. destruct E0; [left; assumption | right; lra]. }
  set (q := (A / 1000000000)%R). set (B := rnd q).
  assert (Hq : (q = 0 \/ / 1000000000000 <= q)%R).
  { unfold q. destruct E0 as [E|E].
    - left. rewrite E in HA. assert (A = 0)%R by lra. rewrite H. lra.
    - right. assert (0.9 <= A)%R by nra. lra. }
  assert (HB : (q * (1 - u) <= B <= q * (1 + u))%R) by (apply rnd_rel_nonneg, Hq).
  set (p := (B * IZR d)%R).
  assert (Hp : (p = 0 \/ / 1000000000000 <= p)%R).
  { unfold p. destruct D0 as [D|D]; [left; rewrite D; lra|].
    destruct Hq as [Q|Q]; [left; rewrite Q in HB; assert (B = 0)%R by lra; rewrite H; lra|].
    right. assert (/ 1000000000000 * 0.9 <= B)%R by nra.
    destruct E0 as [E|E].
    - exfalso. rewrite E in HA. assert (A = 0)%R by lra. unfold q in Q. rewrite H0 in Q. lra.
    - assert (0.9 <= A)%R by nra. assert (0.9 / 1000000000 <= q)%R by (unfold q; lra).
      assert (0.8 / 1000000000 <= B)%R by nra. nra. }
  assert (HC : (p * (1 - u) <= rnd p <= p * (1 + u))%R) by (apply rnd_rel_nonneg, Hp).
  assert (X : x = (IZR e * IZR d / 1000000000)%R) by reflexivity.
  assert (e0 : (0 <= IZR e)%R) by (apply IZR_le; lia).
  assert (d0 : (0 <= IZR d)%R) by (apply IZR_le; lia).
  assert (q0 : (IZR e / 1000000000 * (1 - u) <= q <= IZR e / 1000000000 * (1 + u))%R) by (unfold q; lra).
  assert (B0 : (IZR e / 1000000000 * ((1 - u) * (1 - u)) <= B <= IZR e / 1000000000 * ((1 + u) * (1 + u)))%R).
  { assert (0 <= IZR e / 1000000000)%R by lra. nra. }
  assert (p0 : (x * ((1 - u) * (1 - u)) <= p <= x * ((1 + u) * (1 + u)))%R).
  { unfold p. rewrite X. split.
    - replace (IZR e * IZR d / 1000000000 * ((1 - u) * (1 - u)))%R
        with (IZR e / 1000000000 * ((1 - u) * (1 - u)) * IZR d)%R by lra.
      apply Rmult_le_compat_r; lra.
    - replace (IZR e * IZR d / 1000000000 * ((1 + u) * (1 + u)))%R
        with (IZR e / 1000000000 * ((1 + u) * (1 + u)) * IZR d)%R by lra.
      apply Rmult_le_compat_r; lra. }
  assert (x0 : (0 <= x)%R) by (rewrite X; apply Rmult_le_pos; [apply Rmult_le_pos; assumption | lra]).
  assert (P0 : (0 <= p)%R) by (assert (0 <= (1 - u) * (1 - u))%R by nra; nra).
  split.
  - apply Rle_trans with (p * (1 - u))%R; [|lra].
    apply Rle_trans with (x * ((1 - u) * (1 - u)) * (1 - u))%R; [|apply Rmult_le_compat_r; lra].
    assert (1 - 4 * u <= (1 - u) * (1 - u) * (1 - u))%R by nra. nra.
  - apply Rle_trans with (p * (1 + u))%R; [lra|].
    apply Rle_trans with (x * ((1 + u) * (1 + u)) * (1 + u))%R; [apply Rmult_le_compat_r; lra|].
    assert ((1 + u) * (1 + u) * (1 + u) <= 1 + 4 * u)%R by nra. nra.
Qed.

(* integer reading: the growth is within one nanosecond below and 4u relative above the exact product *)
Theorem growth_width e d : 0 <= e <= EMAX -> 0 <= d <= DOK ->
  let x := (IZR e * IZR d / 1000000000)%R in
  (x * (1 - 4 * u) - 1 < IZR (growth e d) <= x * (1 + 4 * u))%R.
Proof.
  intros He Hd x. destruct (growth_spec e d He Hd) as [-> _].
  destruct (gf_spec e d He) as (_ & _ & P0 & _); [unfold DOK, DMAX in *; lia|].
  pose proof (gR_width e d ltac:(lia) ltac:(lia)) as W. cbv zeta in W. fold x in W.
  rewrite Ztrunc_floor by exact P0.
  pose proof (Zfloor_lb (gR e d)). pose proof (Zfloor_ub (gR e d)).
  lra.
Qed.

(* ------------------------------------------------------------------ C12: delays are pessimistic *)
(* an as-of instant taken earlier (the daemon reads the clock before it queries chronyd) can only
   enlarge the half-width a client computes *)
Theorem halfwidth_antitone_as_of c c' mono : ceb_inR c -> ceb_inR c' -> ts_inR mono -> c_drift c < 1000000000 ->
  c_bound c' = c_bound c -> c_drift c' = c_drift c -> ns (c_as_of c') <= ns (c_as_of c) ->
  halfwidth c mono <= halfwidth c' mono.
Proof.
  intros (Ha & _ & Hb & Hdr) (Ha' & _ & _ & _) Hm Hd Eb Ed Hle. unfold halfwidth, elapsed. rewrite Eb, Ed.
  pose proof (ns_range _ Ha). pose proof (ns_range _ Ha'). pose proof (ns_range _ Hm). unfold SECMAX, NS in *.
  assert (growth (Z.max 0 (ns mono - ns (c_as_of c))) (c_drift c) <= growth (Z.max 0 (ns mono - ns (c_as_of c'))) (c_drift c)).
  { apply growth_mono; unfold EMAX, DOK; lia. }
  lia.
Qed.

(* a delay between the client's realtime read and its (later) monotonic read can only enlarge it *)
Theorem halfwidth_delay_pessimistic c mono mono' : ceb_inR c -> ts_inR mono -> ts_inR mono' ->
  c_drift c < 1000000000 -> ns mono <= ns mono' -> halfwidth c mono <= halfwidth c mono'.
Proof. exact (halfwidth_monotone c mono mono'). Qed.
