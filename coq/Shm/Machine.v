(* Single-writer release/acquire machine for the shared-memory segment, and the programs of
   ShmWriter::write / ShmReader::snapshot (clock-bound-shm/src/writer.rs, reader.rs) as small-step
   functions: one step = one shared-memory access (or fence), exactly the granularity of the
   verification shim (clock-bound-shm/src/verif.rs).

   The writer's stores form one log of events; a reader owns a view (the log prefix it has
   synchronised with, the prefix collected by relaxed loads, per-location coherence floors).  A load
   may return any event on its location that is not older than the coherence floor and not
   overwritten inside the synchronised prefix.  Sequential consistency = every load returns the
   latest event.  Events carry ghost fields (attempt number, kind) used only by the proofs. *)
From Coq Require Import ZArith List Bool Arith NArith Lia.
From CB Require Import Gen.
Import ListNotations.
Open Scope Z_scope.

Inductive loc := LVer | LGen | LCell (i : nat).
Definition loc_eqb (a b : loc) : bool :=
  match a, b with
  | LVer, LVer => true | LGen, LGen => true | LCell i, LCell j => Nat.eqb i j | _, _ => false
  end.

Inductive ord := Rlx | Acq | Rel | AcqRel | SeqCst.
Definition is_acq (o : ord) : bool := match o with Acq | AcqRel | SeqCst => true | _ => false end.
Definition is_rel (o : ord) : bool := match o with Rel | AcqRel | SeqCst => true | _ => false end.
Definition is_acq_fence (o : option ord) : bool := match o with Some o => is_acq o | None => false end.
Definition is_rel_fence (o : option ord) : bool := match o with Some o => is_rel o | None => false end.

Inductive gkind := KInit | KOdd | KEven | KCell | KVer.
Record event := mkev { e_loc : loc; e_val : Z; e_rel : nat; e_att : nat; e_kind : gkind }.

(* ------------------------------------------------------------------ configuration *)
(* orderings and fences as measured from the running code (Current/SeqCfg.v) *)
Record cfg := mkcfg {
  c_w_load : ord; c_w_odd : ord; c_w_fence : option ord; c_w_even : ord;
  c_r_ver : ord; c_r_g1 : ord; c_r_fence : option ord; c_r_g2 : ord;
  c_cells : nat; c_w_order : list nat; c_r_order : list nat; c_retries : N }.

Fixpoint mem_nat (x : nat) (l : list nat) : bool :=
  match l with [] => false | y :: t => Nat.eqb x y || mem_nat x t end.
Fixpoint nodup_nat (l : list nat) : bool :=
  match l with [] => true | x :: t => negb (mem_nat x t) && nodup_nat t end.
Definition is_perm (l : list nat) (n : nat) : bool :=
  Nat.eqb (length l) n && nodup_nat l && forallb (fun i => Nat.ltb i n) l.

Definition safe_cfg (c : cfg) : bool :=
  is_rel_fence (c_w_fence c) && is_rel (c_w_even c) && is_acq (c_r_g1 c) && is_acq (c_r_g2 c) &&
  is_acq_fence (c_r_fence c) && is_perm (c_w_order c) (c_cells c) && is_perm (c_r_order c) (c_cells c) &&
  Nat.ltb 0 (c_cells c).

(* ------------------------------------------------------------------ log helpers *)
Fixpoint latest_from (l : loc) (L : list event) (base : nat) (acc : option nat) : option nat :=
  match L with
  | [] => acc
  | e :: t => latest_from l t (S base) (if loc_eqb (e_loc e) l then Some base else acc)
  end.
Definition latest (l : loc) (L : list event) : option nat := latest_from l L 0%nat None.
Definition val_at (L : list event) (i : nat) : Z := match nth_error L i with Some e => e_val e | None => 0 end.
Definition latest_val (l : loc) (L : list event) : Z :=
  match latest l L with Some i => val_at L i | None => 0 end.

(* is there an event on l at a position in (i, hi) ?  scans downward from hi *)
Fixpoint newer_in (L : list event) (l : loc) (i hi : nat) : bool :=
  match hi with
  | O => false
  | S h => if Nat.leb hi (S i) then false
           else (match nth_error L h with Some e => loc_eqb (e_loc e) l | None => false end) || newer_in L l i h
  end.

(* ------------------------------------------------------------------ trace items (for the correspondence) *)
Inductive akind := ALoad | AStore | AFence | ACellW | ACellR.
Record titem := mkti { t_kind : akind; t_loc : loc; t_ord : ord; t_val : Z }.

(* ------------------------------------------------------------------ writer *)
Inductive wpc :=
| WIdle
| WLoaded (g : Z)                       (* generation loaded *)
| WOddDone (g : Z)                      (* odd value g stored, fence (if any) pending *)
| WCopy (g : Z) (todo : list nat)       (* cells still to store, in order *)
| WDead.                                (* crashed, not restarted yet *)

Record wst := mkw { w_log : list event; w_relview : nat; w_pc : wpc; w_att : nat; w_rec : list Z }.

Definition w_push (w : wst) (l : loc) (v : Z) (o : ord) (k : gkind) (att : nat) : list event :=
  w_log w ++ [mkev l v (if is_rel o then S (length (w_log w)) else w_relview w) att k].

(* one access of write(r); returns the new state and what the shim would report.
   [k] is ghost: the number of this write() call (1, 2, ...), recorded in the events it stores. *)
Definition w_step (c : cfg) (w : wst) (r : list Z) (k : nat) : wst * option titem :=
  match w_pc w with
  | WIdle =>
      let g := latest_val LGen (w_log w) in
      (mkw (w_log w) (w_relview w) (WLoaded g) k r, Some (mkti ALoad LGen (c_w_load c) g))
  | WLoaded g =>
      let p := pre g in
      (mkw (w_push w LGen p (c_w_odd c) KOdd (w_att w)) (w_relview w)
           (match c_w_fence c with Some _ => WOddDone p | None => WCopy p (c_w_order c) end) (w_att w) (w_rec w),
       Some (mkti AStore LGen (c_w_odd c) p))
  | WOddDone p =>
      match c_w_fence c with
      | Some o => (mkw (w_log w) (if is_rel o then length (w_log w) else w_relview w) (WCopy p (c_w_order c)) (w_att w) (w_rec w),
                   Some (mkti AFence LGen o 0))
      | None => (w, None)
      end
  | WCopy p (i :: todo) =>
      let v := nth i (w_rec w) 0 in
      (mkw (w_push w (LCell i) v Rlx KCell (w_att w)) (w_relview w) (WCopy p todo) (w_att w) (w_rec w),
       Some (mkti ACellW (LCell i) Rlx v))
  | WCopy p [] =>
      let q := post p in
      (mkw (w_push w LGen q (c_w_even c) KEven (w_att w)) (w_relview w) WIdle (w_att w) (w_rec w),
       Some (mkti AStore LGen (c_w_even c) q))
  | WDead => (w, None)
  end.

Definition w_crash (w : wst) : wst := mkw (w_log w) (w_relview w) WDead (w_att w) (w_rec w).

(* ShmWriter::new over the existing file.  Valid header (version and generation non-zero): taken
   over in place, version := 1 (relaxed).  Otherwise wiped: a fresh log. *)
Definition init_log (ncell : nat) : list event :=
  mkev LVer 0 0 0 KInit :: mkev LGen 0 0 0 KInit ::
  map (fun i => mkev (LCell i) 0 0 0 KInit) (seq 0 ncell).

Definition header_valid (L : list event) : bool :=
  negb (latest_val LVer L =? 0) && negb (latest_val LGen L =? 0).

Definition w_restart (c : cfg) (w : wst) : wst :=
  if header_valid (w_log w) then
    mkw (w_push w LVer 1 Rlx KVer (w_att w)) (w_relview w) WIdle (w_att w) []
  else
    let L0 := init_log (c_cells c) in
    mkw (L0 ++ [mkev LVer 1 (length L0) 0 KVer]) (length L0) WIdle 0 [].

Definition w_init (c : cfg) : wst :=
  let L0 := init_log (c_cells c) in
  mkw (L0 ++ [mkev LVer 1 (length L0) 0 KVer]) (length L0) WIdle 0 [].

(* ------------------------------------------------------------------ reader *)
Record rview := mkv { cur : nat; acq : nat; coh_ver : nat; coh_gen : nat; coh_cell : list nat }.

Definition coh_get (v : rview) (l : loc) : nat :=
  match l with LVer => coh_ver v | LGen => coh_gen v | LCell i => nth i (coh_cell v) 0%nat end.
Fixpoint upd_nth (l : list nat) (i : nat) (x : nat) : list nat :=
  match l, i with
  | [], _ => []
  | _ :: t, O => x :: t
  | h :: t, S k => h :: upd_nth t k x
  end.
Definition coh_set (v : rview) (l : loc) (i : nat) : rview :=
  match l with
  | LVer => mkv (cur v) (acq v) i (coh_gen v) (coh_cell v)
  | LGen => mkv (cur v) (acq v) (coh_ver v) i (coh_cell v)
  | LCell k => mkv (cur v) (acq v) (coh_ver v) (coh_gen v) (upd_nth (coh_cell v) k i)
  end.

Definition can_read (L : list event) (v : rview) (l : loc) (i : nat) : bool :=
  match nth_error L i with
  | Some e => loc_eqb (e_loc e) l && Nat.leb (coh_get v l) i && negb (newer_in L l i (cur v))
  | None => false
  end.

(* a load of l with ordering o returning event i (None: the latest event = sequential consistency) *)
Definition do_read (L : list event) (v : rview) (l : loc) (o : ord) (choice : option nat) : option (Z * nat * rview) :=
  let i := match choice with Some i => Some i | None => latest l L end in
  match i with
  | None => None
  | Some i =>
    if can_read L v l i then
      match nth_error L i with
      | Some e =>
          let v1 := coh_set v l i in
          let a := Nat.max (acq v1) (e_rel e) in
          let cu := if is_acq o then Nat.max (cur v1) (e_rel e) else cur v1 in
          Some (e_val e, i, mkv cu a (coh_ver v1) (coh_gen v1) (coh_cell v1))
      | None => None
      end
    else None
  end.

Definition r_fence (v : rview) (o : ord) : rview :=
  if is_acq o then mkv (Nat.max (cur v) (acq v)) (acq v) (coh_ver v) (coh_gen v) (coh_cell v) else v.

Inductive rret := RetCache | RetFresh | RetErr.

Inductive rpc :=
| RIdle
| RVer                                   (* version loaded and non-zero *)
| RCopy (first_gen : Z) (todo : list nat) (acc : list (nat * Z)) (budget : N)
| RFence (first_gen : Z) (acc : list (nat * Z)) (budget : N)
| RReload (first_gen : Z) (acc : list (nat * Z)) (budget : N).

(* ghost: positions of the event read for first_gen and for each cell of the current iteration *)
Record rst := mkr { r_view : rview; r_pc : rpc; r_cache : list Z; r_cache_gen : Z;
                    r_g1pos : nat; r_cellpos : list (nat * nat) }.

Definition assemble (n : nat) (acc : list (nat * Z)) : list Z :=
  map (fun i => match find (fun p => Nat.eqb (fst p) i) acc with Some p => snd p | None => 0 end) (seq 0 n).

Definition r_done (r : rst) : rst := mkr (r_view r) RIdle (r_cache r) (r_cache_gen r) (r_g1pos r) (r_cellpos r).

(* one access of snapshot(); returns new state, the shim-level trace item, and the call's result
   when this access was its last one.  [None] overall = the chosen event is not readable. *)
Definition r_step (c : cfg) (L : list event) (r : rst) (choice : option nat) : option (rst * option titem * option rret) :=
  match r_pc r with
  | RIdle =>
      match do_read L (r_view r) LVer (c_r_ver c) choice with
      | None => None
      | Some (ver, _, v) =>
          let it := Some (mkti ALoad LVer (c_r_ver c) ver) in
          if ver =? 0 then Some (mkr v RIdle (r_cache r) (r_cache_gen r) (r_g1pos r) (r_cellpos r), it, Some RetCache)
          else Some (mkr v RVer (r_cache r) (r_cache_gen r) (r_g1pos r) (r_cellpos r), it, None)
      end
  | RVer =>
      match do_read L (r_view r) LGen (c_r_g1 c) choice with
      | None => None
      | Some (g, p, v) =>
          let it := Some (mkti ALoad LGen (c_r_g1 c) g) in
          if (g =? 0) || (g =? r_cache_gen r) || Z.odd g then
            Some (mkr v RIdle (r_cache r) (r_cache_gen r) (r_g1pos r) (r_cellpos r), it, Some RetCache)
          else if N.eqb (c_retries c) 0 then
            Some (mkr v RIdle (r_cache r) (r_cache_gen r) p [], it, Some RetErr)
          else Some (mkr v (RCopy g (c_r_order c) [] (c_retries c)) (r_cache r) (r_cache_gen r) p [], it, None)
      end
  | RCopy g (i :: todo) acc b =>
      match do_read L (r_view r) (LCell i) Rlx choice with
      | None => None
      | Some (x, p, v) =>
          let acc' := (i, x) :: acc in
          let pc := match todo with
                    | [] => (match c_r_fence c with Some _ => RFence g acc' b | None => RReload g acc' b end)
                    | _ => RCopy g todo acc' b
                    end in
          Some (mkr v pc (r_cache r) (r_cache_gen r) (r_g1pos r) ((i, p) :: r_cellpos r),
                Some (mkti ACellR (LCell i) Rlx x), None)
      end
  | RCopy g [] acc b =>   (* zero cells: degenerate, go on to the reload *)
      Some (mkr (r_view r) (match c_r_fence c with Some _ => RFence g acc b | None => RReload g acc b end)
                (r_cache r) (r_cache_gen r) (r_g1pos r) (r_cellpos r), None, None)
  | RFence g acc b =>
      match c_r_fence c with
      | Some o => Some (mkr (r_fence (r_view r) o) (RReload g acc b) (r_cache r) (r_cache_gen r) (r_g1pos r) (r_cellpos r),
                        Some (mkti AFence LGen o 0), None)
      | None => Some (mkr (r_view r) (RReload g acc b) (r_cache r) (r_cache_gen r) (r_g1pos r) (r_cellpos r), None, None)
      end
  | RReload g acc b =>
      match do_read L (r_view r) LGen (c_r_g2 c) choice with
      | None => None
      | Some (g2, p, v) =>
          let it := Some (mkti ALoad LGen (c_r_g2 c) g2) in
          if g2 =? g then
            Some (mkr v RIdle (assemble (c_cells c) acc) g (r_g1pos r) (r_cellpos r), it, Some RetFresh)
          else
            let g' := if Z.even g2 then g2 else g in
            let p' := if Z.even g2 then p else r_g1pos r in
            let b' := N.pred b in
            if N.eqb b' 0 then Some (mkr v RIdle (r_cache r) (r_cache_gen r) p' [], it, Some RetErr)
            else Some (mkr v (RCopy g' (c_r_order c) [] b') (r_cache r) (r_cache_gen r) p' [], it, None)
      end
  end.

(* ShmReader::new on a valid segment: empty cache, cached generation 0; the new process has
   synchronised with everything written before it mapped the file *)
Definition r_new (c : cfg) (L : list event) : rst :=
  mkr (mkv (length L) (length L) 0 0 (repeat 0%nat (c_cells c))) RIdle (repeat 0 (c_cells c)) 0 0%nat [].

(* ------------------------------------------------------------------ whole-system runs *)
Inductive token :=
| TW                          (* one access of the writer (starts the next write() when idle) *)
| TR (j : nat) (choice : option nat)   (* one access of reader j (starts a snapshot() when idle) *)
| TCrash                      (* the writer process dies where it is *)
| TRestart                    (* a new daemon process runs ShmWriter::new *)
| TNewReader                  (* a client opens the segment (only when its header is valid) *)
| TJump (v : Z).              (* testing device: the generation is set to v while no update is in
                                 flight, standing for the publications that lead there *)

Record mstate := mkm { m_w : wst; m_rs : list rst; m_nrec : nat; m_cfg : cfg }.

(* record number k handed to write() (k >= 1): cell i = 1000 * k + i, except cell 6 (the status
   word of the real record, which must stay a valid discriminant) = k mod 3 *)
Definition rec_of (n : nat) (k : nat) : list Z :=
  map (fun i => if Nat.eqb i 6 then Z.of_nat k mod 3 else 1000 * Z.of_nat k + Z.of_nat i) (seq 0 n).

Lemma rec_of_len n k : length (rec_of n k) = n.
Proof. unfold rec_of. rewrite map_length, seq_length. reflexivity. Qed.

(* a second family of records: as-of instant (cells 0, 1) and bound (cell 4) are the same in every
   publication, the other cells carry the number of the call (what the daemon publishes while chronyd is
   silent: the measurement stands, status and void-after move) *)
Definition rec_of_c (n : nat) (k : nat) : list Z :=
  map (fun i => if Nat.eqb i 0 then 7 else if Nat.eqb i 1 then 8 else if Nat.eqb i 4 then 9
                else if Nat.eqb i 6 then Z.of_nat k mod 3 else 1000 * Z.of_nat k + Z.of_nat i) (seq 0 n).

Lemma rec_of_c_len n k : length (rec_of_c n k) = n.
Proof. unfold rec_of_c. rewrite map_length, seq_length. reflexivity. Qed.

(* What the daemon publishes.  The protocol never looks at the content of a record, so the machine
   and every theorem about it are stated for an arbitrary function from the number of the write()
   call to the record it publishes; [rec_of] (pairwise different records, used by the
   correspondence with the real code and by the statements about publication order) is one instance. *)
Class RecFun := { recf : nat -> nat -> list Z; recf_len : forall n k, length (recf n k) = n }.
Definition std_rec : RecFun := {| recf := rec_of; recf_len := rec_of_len |}.
Definition const_rec : RecFun := {| recf := rec_of_c; recf_len := rec_of_c_len |}.

Inductive obs :=
| OAccess (who : nat) (it : titem)          (* who: 0 = writer, S j = reader j *)
| ORet (j : nat) (ret : rret) (rec : list Z)
| OSkip                                     (* token not applicable in this state (skipped) *)
| OStuck.                                   (* unreadable choice *)

Fixpoint replace_nth {A} (l : list A) (i : nat) (x : A) : list A :=
  match l, i with
  | [], _ => []
  | _ :: t, O => x :: t
  | h :: t, S k => h :: replace_nth t k x
  end.

Section Run.
Context {RF : RecFun}.

Definition m_step (m : mstate) (t : token) : mstate * list obs :=
  let c := m_cfg m in
  match t with
  | TW =>
      let starting := match w_pc (m_w m) with WIdle => true | _ => false end in
      let k := if starting then S (m_nrec m) else m_nrec m in
      match w_step c (m_w m) (recf (c_cells c) k) k with
      | (w', Some it) => (mkm w' (m_rs m) k c, [OAccess 0 it])
      | (w', None) => (m, [OSkip])
      end
  | TR j choice =>
      match nth_error (m_rs m) j with
      | None => (m, [OSkip])
      | Some r =>
          match r_step c (w_log (m_w m)) r choice with
          | None => (m, [OStuck])
          | Some (r', it, ret) =>
              let o1 := match it with Some it => [OAccess (S j) it] | None => [] end in
              let o2 := match ret with Some x => [ORet j x (r_cache r')] | None => [] end in
              (mkm (m_w m) (replace_nth (m_rs m) j r') (m_nrec m) c, o1 ++ o2)
          end
      end
  | TCrash =>
      match w_pc (m_w m) with
      | WDead => (m, [OSkip])
      | _ => (mkm (w_crash (m_w m)) (m_rs m) (m_nrec m) c, [])
      end
  | TRestart =>
      match w_pc (m_w m) with
      | WDead => (mkm (w_restart c (m_w m)) (m_rs m) (m_nrec m) c, [])
      | _ => (m, [OSkip])
      end
  | TJump v =>
      match w_pc (m_w m) with
      | WIdle | WDead =>
          let w := m_w m in
          (mkm (mkw (w_push w LGen v Rel KEven (w_att w)) (w_relview w) (w_pc w) (w_att w) (w_rec w)) (m_rs m) (m_nrec m) c, [])
      | _ => (m, [OSkip])
      end
  | TNewReader =>
      if header_valid (w_log (m_w m)) then (mkm (m_w m) (m_rs m ++ [r_new c (w_log (m_w m))]) (m_nrec m) c, [])
      else (m, [OSkip])
  end.

Fixpoint m_run (m : mstate) (ts : list token) : mstate * list obs :=
  match ts with
  | [] => (m, [])
  | t :: ts' => let '(m1, o1) := m_step m t in let '(m2, o2) := m_run m1 ts' in (m2, o1 ++ o2)
  end.

End Run.

Definition m_init (c : cfg) : mstate := mkm (w_init c) [] 0 c.

(* the instance that is extracted and run against the real code *)
Definition m_run_std := @m_run std_rec.
(* ... and the same machine publishing the second family (harness operation shmc) *)
Definition m_run_const := @m_run const_rec.

(* final memory as a third party sees it: version, generation, cells *)
Definition mem_of (c : cfg) (L : list event) : list Z :=
  latest_val LVer L :: latest_val LGen L :: map (fun i => latest_val (LCell i) L) (seq 0 (c_cells c)).

(* the configuration of the code after the fences were added (what Current/SeqCfg.v is expected
   to measure): Acquire loads, Release stores, both fences, ascending copy order, 7 cells *)
Definition fixed_cfg : cfg :=
  mkcfg Acq Rel (Some Rel) Rel Acq Acq (Some Acq) Acq 7 (seq 0 7) (seq 0 7) 1000000.
(* the pinned tree before the fix: no fences *)
Definition unfenced_cfg : cfg :=
  mkcfg Acq Rel None Rel Acq Acq None Acq 7 (seq 0 7) (seq 0 7) 1000000.
