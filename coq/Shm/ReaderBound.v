(* C18: a snapshot() call terminates after a bounded number of shared accesses, whatever the
   writer does: a Z-valued measure that strictly decreases at every step that does not return. *)
From Coq Require Import ZArith List Bool Arith NArith Lia.
From CB Require Import Gen Machine.
Import ListNotations.
Open Scope Z_scope.

(* cost of one iteration of the retry loop: the cell loads, the fence, the re-load (+1 for the
   internal no-op step of a zero-cell configuration) *)
Definition iter_cost (c : cfg) : Z := Z.of_nat (length (c_r_order c)) + 3.

Definition mu (c : cfg) (pc : rpc) : Z :=
  match pc with
  | RIdle => 2 + Z.of_N (c_retries c) * iter_cost c
  | RVer => 1 + Z.of_N (c_retries c) * iter_cost c
  | RCopy _ todo _ b => Z.of_nat (length todo) + 3 + (Z.of_N b - 1) * iter_cost c
  | RFence _ _ b => 2 + (Z.of_N b - 1) * iter_cost c
  | RReload _ _ b => 1 + (Z.of_N b - 1) * iter_cost c
  end.

Definition budget_ok (pc : rpc) : Prop :=
  match pc with
  | RCopy _ _ _ b | RFence _ _ b | RReload _ _ b => (0 < b)%N
  | _ => True
  end.

Definition todo_ok (c : cfg) (pc : rpc) : Prop :=
  match pc with RCopy _ todo _ _ => (length todo <= length (c_r_order c))%nat | _ => True end.

Lemma iter_cost_pos c : 3 <= iter_cost c. Proof. unfold iter_cost. lia. Qed.

Lemma prod_nonneg c b : (0 < b)%N -> 0 <= (Z.of_N b - 1) * iter_cost c.
Proof. intros H. pose proof (iter_cost_pos c). apply Z.mul_nonneg_nonneg; lia. Qed.

(* every step either ends the call or strictly decreases the measure, for every log and every
   choice of the event read (i.e. whatever the writer did in between) *)
Theorem r_step_decreases c L r ch r' it :
  budget_ok (r_pc r) -> todo_ok c (r_pc r) ->
  r_step c L r ch = Some (r', it, None) ->
  0 <= mu c (r_pc r') < mu c (r_pc r) /\ budget_ok (r_pc r') /\ todo_ok c (r_pc r').
Proof.
  intros HB HT H. pose proof (iter_cost_pos c) as K. unfold r_step in H.
  destruct (r_pc r) as [| | g todo acc b | g acc b | g acc b] eqn:PC.
  - destruct (do_read L (r_view r) LVer (c_r_ver c) ch) as [[[ver p] v]|]; [|discriminate].
    destruct (ver =? 0); inversion H; subst; cbn [r_pc mu budget_ok todo_ok].
    pose proof (N2Z.is_nonneg (c_retries c)). split; [nia | auto].
  - destruct (do_read L (r_view r) LGen (c_r_g1 c) ch) as [[[g p] v]|]; [|discriminate].
    destruct ((g =? 0) || (g =? r_cache_gen r) || Z.odd g); [discriminate|].
    destruct (N.eqb_spec (c_retries c) 0) as [E|E]; [discriminate|].
    inversion H; subst; cbn [r_pc mu budget_ok todo_ok]. unfold iter_cost in *.
    assert (0 < Z.of_N (c_retries c)) by lia. split; [|split]; try lia; nia.
  - destruct todo as [|i todo].
    + inversion H; subst. cbn [budget_ok] in HB. pose proof (prod_nonneg c b HB).
      destruct (c_r_fence c); cbn [r_pc mu budget_ok todo_ok length]; (split; [|split]); try exact I; try lia.
    + destruct (do_read L (r_view r) (LCell i) Rlx ch) as [[[x p] v]|]; [|discriminate].
      inversion H; subst. cbn [budget_ok todo_ok length] in *. pose proof (prod_nonneg c b HB).
      destruct todo as [|i' todo']; [destruct (c_r_fence c)|]; cbn [r_pc mu budget_ok todo_ok length] in *;
        (split; [|split]); try exact I; try lia.
  - cbn [budget_ok] in HB. pose proof (prod_nonneg c b HB).
    destruct (c_r_fence c); inversion H; subst; cbn [r_pc mu budget_ok todo_ok]; (split; [|split]); try exact I; try lia.
  - cbn [budget_ok] in HB.
    destruct (do_read L (r_view r) LGen (c_r_g2 c) ch) as [[[g2 p] v]|]; [|discriminate].
    destruct (g2 =? g); [discriminate|].
    destruct (N.eqb_spec (N.pred b) 0) as [E|E]; [discriminate|].
    inversion H; subst; cbn [r_pc mu budget_ok todo_ok].
    assert (HB' : (0 < N.pred b)%N) by lia. pose proof (prod_nonneg c (N.pred b) HB').
    replace (Z.of_N b - 1) with ((Z.of_N (N.pred b) - 1) + 1) by lia.
    rewrite Z.mul_add_distr_r, Z.mul_1_l. unfold iter_cost in *. split; [|split]; try lia.
Qed.

(* a call = iterate r_step over any sequence of (log seen at that step, event chosen); it has
   returned before the measure of RIdle is used up *)
Fixpoint r_call (c : cfg) (r : rst) (inputs : list (list event * option nat)) : option (nat * rret * rst) :=
  match inputs with
  | [] => None
  | (L, ch) :: rest =>
      match r_step c L r ch with
      | None => None
      | Some (r', _, Some ret) => Some (1%nat, ret, r')
      | Some (r', _, None) =>
          match r_call c r' rest with
          | Some (n, ret, r'') => Some (S n, ret, r'')
          | None => None
          end
      end
  end.

Definition legal_inputs (c : cfg) : rst -> list (list event * option nat) -> Prop :=
  fix go r inputs :=
    match inputs with
    | [] => True
    | (L, ch) :: rest =>
        match r_step c L r ch with
        | None => False
        | Some (r', _, Some _) => True
        | Some (r', _, None) => go r' rest
        end
    end.

Theorem call_bounded c : forall inputs r,
  budget_ok (r_pc r) -> todo_ok c (r_pc r) -> legal_inputs c r inputs ->
  mu c (r_pc r) <= Z.of_nat (length inputs) ->
  exists n ret r', r_call c r inputs = Some (n, ret, r') /\ Z.of_nat n <= mu c (r_pc r).
Proof.
  induction inputs as [|[L ch] rest IH]; intros r HB HT HL HM.
  - cbn [length] in HM. exfalso.
    destruct (r_pc r); cbn [mu budget_ok] in *; pose proof (iter_cost_pos c); try lia; nia.
  - cbn [legal_inputs r_call] in *.
    destruct (r_step c L r ch) as [[[r' it] [ret|]]|] eqn:E; [| |contradiction].
    + exists 1%nat, ret, r'. split; [reflexivity|].
      destruct (r_pc r); cbn [mu budget_ok] in *; pose proof (iter_cost_pos c); try lia; nia.
    + destruct (r_step_decreases c L r ch r' it HB HT E) as (D & HB' & HT').
      destruct (IH r' HB' HT' HL) as [n [ret [r2 [Hc Hn]]]].
      { cbn [length] in HM. lia. }
      rewrite Hc. exists (S n), ret, r2. split; [reflexivity|]. lia.
Qed.

(* early returns: version 0, generation 0 / unchanged / odd: the cache after at most 2 accesses *)
Theorem early_return c L1 ch1 L2 ch2 r r1 it1 :
  r_pc r = RIdle -> r_step c L1 r ch1 = Some (r1, it1, None) ->
  forall g p v, do_read L2 (r_view r1) LGen (c_r_g1 c) ch2 = Some (g, p, v) ->
  (g = 0 \/ g = r_cache_gen r1 \/ Z.odd g = true) ->
  exists r2 it2, r_step c L2 r1 ch2 = Some (r2, it2, Some RetCache) /\ r_cache r2 = r_cache r.
Proof.
  intros PC H1 g p v H2 Hg. unfold r_step in H1. rewrite PC in H1.
  destruct (do_read L1 (r_view r) LVer (c_r_ver c) ch1) as [[[ver p1] v1]|]; [|discriminate].
  destruct (ver =? 0); [discriminate|]. inversion H1; subst. clear H1.
  unfold r_step. cbn [r_pc r_view r_cache_gen r_cache] in *. rewrite H2.
  assert (T : (g =? 0) || (g =? r_cache_gen r) || Z.odd g = true).
  { destruct Hg as [-> | [-> | ->]]; [reflexivity | rewrite Z.eqb_refl, orb_true_r; reflexivity | apply orb_true_r]. }
  rewrite T. eexists _, _. split; reflexivity.
Qed.
