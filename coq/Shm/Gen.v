(* Generation arithmetic of ShmWriter::write (clock-bound-shm/src/writer.rs):
     gen = load; gen = if gen & 1 == 0 { gen.wrapping_add(1) } else { gen }; store gen;   -- [pre]
     ... copy ...
     gen = gen.wrapping_add(1); if gen == 0 { gen = 2 }; store gen                          -- [post] *)
From Coq Require Import ZArith Lia ZifyBool.
Open Scope Z_scope.

Definition pre (g : Z) : Z := if Z.even g then (g + 1) mod 65536 else g.
Definition post (p : Z) : Z := let x := (p + 1) mod 65536 in if x =? 0 then 2 else x.

(* index of an even non-zero generation in the cycle 2,4,...,65534 *)
Definition idx (e : Z) : Z := e / 2 - 1.
