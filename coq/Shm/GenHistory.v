(* The generation field over every history of complete and interrupted updates.
   This is the projection of the writer program of Shm/Machine.v on the generation location:
   [Begin] = load + odd store, [End] = final store, [Crash] = the writer stops (and a later
   incarnation takes the segment over in place, leaving the field as it is). *)
From Coq Require Import ZArith Lia List Bool.
From CB Require Import Gen GenProofs.
Import ListNotations.
Open Scope Z_scope.

Inductive gphase := Clean | Copying | Dirty.
Inductive gop := Begin | End | Crash.

Record gstate := { g_val : Z; g_phase : gphase }.

Definition gstep (s : gstate) (o : gop) : gstate :=
  match o, g_phase s with
  | Begin, Copying => s                                    (* not enabled: already inside an update *)
  | Begin, _ => {| g_val := pre (g_val s); g_phase := Copying |}
  | End, Copying => {| g_val := post (g_val s); g_phase := Clean |}
  | End, _ => s                                            (* not enabled *)
  | Crash, Copying => {| g_val := g_val s; g_phase := Dirty |}
  | Crash, _ => s                                          (* crash between updates: nothing in flight *)
  end.

Definition grun (s : gstate) (ops : list gop) : gstate := fold_left gstep ops s.

(* What a conforming third-party reader may rely on. *)
Definition GInv (s : gstate) : Prop :=
  0 < g_val s < 65536 /\
  match g_phase s with
  | Clean => Z.even (g_val s) = true
  | Copying | Dirty => Z.odd (g_val s) = true
  end.

Lemma even_true_mod g : Z.even g = true <-> g mod 2 = 0.
Proof. rewrite even_mod2. split; intro H; [apply Z.eqb_eq in H|apply Z.eqb_eq]; exact H. Qed.
Lemma odd_true_mod g : Z.odd g = true <-> g mod 2 = 1.
Proof.
  rewrite odd_mod2. pose proof (Z.mod_pos_bound g 2 ltac:(lia)).
  destruct (g mod 2 =? 0) eqn:E; simpl; split; intro; try discriminate; try lia.
Qed.

Lemma GInv_step s o : GInv s -> GInv (gstep s o).
Proof.
  intros [Hr Hp]. destruct s as [g ph]. simpl in *.
  pose proof (generation_step_spec g ltac:(lia)) as (Hodd & Hev & Hnz & _ & _ & Hadopt & Hpr & Hpo).
  assert (Hpre_pos : 0 < pre g) by (apply odd_true_mod in Hodd; lia).
  destruct o; destruct ph; unfold GInv; cbn [gstep g_val g_phase]; try (split; [lia|assumption]).
  (* End from Copying: g is odd, so pre g = g *)
  rewrite <- (Hadopt Hp). split; [lia|exact Hev].
Qed.

Theorem GInv_run s ops : GInv s -> GInv (grun s ops).
Proof.
  unfold grun. revert s. induction ops as [|o ops IH]; intros s H; simpl; [exact H|].
  apply IH, GInv_step, H.
Qed.

(* the value is constant from the first store of an update to (excluding) its last store *)
Lemma copying_constant s : g_phase s = Copying -> forall o, o <> End -> g_val (gstep s o) = g_val s.
Proof. intros Hp o Ho. destruct s as [g ph]; simpl in *; subst ph. destruct o; simpl; congruence. Qed.

(* every completed update changes the value *)
Lemma complete_update_changes s : GInv s -> g_phase s <> Copying ->
  g_val (gstep (gstep s Begin) End) <> g_val s /\ g_phase (gstep (gstep s Begin) End) = Clean.
Proof.
  intros [Hr Hp] Hph. destruct s as [g ph]; simpl in *.
  pose proof (generation_step_spec g ltac:(lia)) as (_ & _ & _ & Hne & _).
  destruct ph; simpl; try congruence; split; auto.
Qed.

(* an update started from the odd value a crashed writer left behind keeps that value *)
Lemma adopt_dirty s : GInv s -> g_phase s = Dirty -> g_val (gstep s Begin) = g_val s.
Proof.
  intros [Hr Hp] Hph. destruct s as [g ph]; simpl in *; subst ph. simpl.
  pose proof (generation_step_spec g ltac:(lia)) as (_ & _ & _ & _ & _ & Hadopt & _). auto.
Qed.

Example ginv_first_publication : GInv (grun {| g_val := 0; g_phase := Clean |} [Begin; End]) .
Proof. unfold GInv. vm_compute. repeat split. Qed.
Example ginv_wrap : g_val (grun {| g_val := 65534; g_phase := Clean |} [Begin; Crash; Begin; End]) = 2.
Proof. reflexivity. Qed.
